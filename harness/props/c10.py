"""C10 — arithmetic and unit conversion act on physical values, not on coordinates."""
from fractions import Fraction as Fr
import numpy as np
from harness import coqio as Q
from harness.impl import poke, lin_wcs, exc_name

CORR = "C10_corr"
IMPORTS = ["M_Arith"]
MODEL_FILES = ["Model/M_Arith.v"]
RULE = ("cases = (cube of 1-3 dims, float / int / dask payload of dyadic values, unit None | '' | scaled dimensionless | m | 2 m | "
        "m/4 | s | ct, uncertainty none | StdDev | Variance | InverseVariance | Unknown, with/without mask; operand: int, float "
        "(positive, negative, fractional), array broadcastable along any trailing axes, scalar or array Quantity in an equal / "
        "convertible / inconvertible unit, a second NDCube, an NDData; operators neg, +, -, *, / and their reflected forms, "
        "integer powers, to(unit)); dyadic values so that float arithmetic is exact; SI units (km, cm, min) by the direct "
        "oracle with a tolerance; distinct by key")
ASSUMPTIONS = ["astropy units are modelled as (scale, integer exponents over m, s, ct); unit conversion and unit products are astropy's",
               "numpy broadcasting of the operand against the data is done by the harness before the model sees it",
               "the uncertainty after ** (and value / cube) is not part of the property and is not compared"]
BASES = ["m", "s", "ct"]
UNITS = {  # name -> (scale numerator, denominator, exps)
    "": (1, 1, [0, 0, 0]), "halfu": (1, 2, [0, 0, 0]), "m": (1, 1, [1, 0, 0]), "twom": (2, 1, [1, 0, 0]), "qm": (1, 4, [1, 0, 0]),
    "s": (1, 1, [0, 1, 0]), "s8": (8, 1, [0, 1, 0]), "ct": (1, 1, [0, 0, 1])}
SI = ["km", "cm", "min", "m", "s"]
CONV = {"m": ["m", "twom", "qm"], "twom": ["m", "twom", "qm"], "qm": ["m", "twom", "qm"], "s": ["s", "s8"], "ct": ["ct"],
        "": ["", "halfu"], "halfu": ["", "halfu"], None: ["", "halfu"]}
OPS = ["neg", "add", "radd", "sub", "rsub", "mul", "rmul", "div", "rdiv", "pow", "to"]
_units_ready = {}


def _unit(name):
    import astropy.units as u
    if name is None:
        return None
    if not _units_ready:
        _units_ready["twom"] = u.def_unit("twom", 2 * u.m)
        _units_ready["qm"] = u.def_unit("qm", u.m / 4)
        _units_ready["s8"] = u.def_unit("s8", 8 * u.s)
        _units_ready["halfu"] = u.def_unit("halfu", 0.5 * u.dimensionless_unscaled)
    return _units_ready[name] if name in _units_ready else u.Unit(name)


def _dy(rng, nonzero=False, pow2=False):
    if pow2:
        return rng.choice([1, 2, 4, 0.5, 0.25, -1, -2, -4, -0.5])
    v = rng.choice([0, 1, 2, 3, 5, 6, -1, -2, -3, -7, 0.5, 1.5, -0.25, 2.75, -4.5])
    return v if (v != 0 or not nonzero) else 1


def gen(tier, rng):
    cases = []
    N = 3000 if tier == "quick" else 60000
    for _ in range(N):
        nd = rng.choice([1, 2, 2, 3])
        shape = [rng.choice([1, 2, 3]) for _ in range(nd)]
        size = int(np.prod(shape))
        op = rng.choice(OPS)
        si = rng.random() < 0.08
        okind = rng.choice(["num", "num", "arr", "qty", "qty", "qarr", "cube", "nddata"]) if op not in ("neg", "pow", "to") else None
        need_pow2 = op in ("rdiv",) or (op == "pow")
        payload = rng.choice(["float", "float", "int", "dask"])
        if payload == "int":
            data = [rng.choice([1, 2, 4, -1, -2, 8]) if need_pow2 else rng.choice([0, 1, 2, 3, -1, -5, 6]) for _ in range(size)]
        else:
            data = [_dy(rng, pow2=need_pow2) for _ in range(size)]
        cunit = rng.choice([None, "", "halfu", "m", "m", "twom", "qm", "s", "ct", "ct"]) if not si else rng.choice(["m", "s"])
        unc = rng.choice([None, "std", "std", "var", "ivar", "unknown"])
        uvals = [rng.choice([0.5, 1, 2, 0.25, 3]) for _ in range(size)] if unc else None
        mask = [rng.random() < 0.3 for _ in range(size)] if rng.random() < 0.4 else None
        operand = None
        k = None
        if op == "pow":
            k = rng.choice([2, 3, 1, 0, -1, -2])
            if payload == "int" and k < 0:
                k = -k
        elif op == "to":
            k = rng.choice(CONV[cunit] + ["s", "m", "ct"]) if not si else rng.choice(SI)
        elif okind in ("num", "arr", "qty", "qarr"):
            p2 = op in ("div", "rdiv") or unc == "ivar"        # 1/k and u/k**2 must be exact in floats
            if okind in ("num", "qty"):
                oshape = []
            else:
                j = rng.randrange(0, nd + 1) if okind == "arr" else rng.randrange(0, nd)
                oshape = shape[j:]
            ovals = [(_dy(rng, pow2=True) if p2 else _dy(rng, nonzero=(unc == "ivar"))) for _ in range(int(np.prod(oshape)) if oshape else 1)]
            if okind == "num" and rng.random() < 0.5 and float(ovals[0]).is_integer():
                ovals = [int(ovals[0])]
            ounit = None
            if okind in ("qty", "qarr"):
                r = rng.random()
                if si:
                    ounit = rng.choice(SI)
                elif r < 0.65:
                    ounit = rng.choice(CONV[cunit])                    # equal or convertible
                else:
                    ounit = rng.choice(["m", "s", "ct", "", "twom"])   # often inconvertible
            operand = {"kind": okind, "shape": oshape, "vals": ovals, "unit": ounit}
        elif okind in ("cube", "nddata"):
            operand = {"kind": okind}
        # 1 / 2: the cube is cube3[1] of a cube with one more axis that carried an extra coord (2: its only extra coord)
        presliced = rng.choice([0, 0, 0, 0, 1, 2])
        key = f"{shape}|{op}|{payload}|{data}|{cunit}|{unc}|{uvals}|{mask}|{operand}|{k}|{presliced}"
        cases.append({"key": key, "stratum": f"{op}-{okind or ''}{'-si' if si else ''}", "shape": shape, "op": op, "payload": payload, "data": data, "cunit": cunit,
                      "unc": unc, "uvals": uvals, "mask": mask, "operand": operand, "k": k, "si": si, "presliced": presliced, "nontrivial": True,
                      "show": {"shape": shape, "payload": payload, "data": data, "unit": cunit, "uncertainty": [unc, uvals], "mask": mask,
                               "operator": op, "operand": operand, "exponent_or_target_unit": k,
                               "cube_obtained_by_integer_slicing_a_cube_with_an_extra_coord_on_the_dropped_axis": presliced}})
    return cases


def _mk_cube(case):
    import astropy.units as u
    from astropy.nddata import StdDevUncertainty, VarianceUncertainty, InverseVariance, UnknownUncertainty
    from ndcube import NDCube
    shape = tuple(case["shape"])
    pre = bool(case.get("presliced"))
    full = ((3,) + shape) if pre else shape

    def arr(vals, dtype):
        a = np.array(vals, dtype=dtype).reshape(shape)
        return np.stack([a + 100, a, a - 100]) if pre and dtype is not bool else (np.stack([a, a, a]) if pre else a)
    d = arr(case["data"], int if case["payload"] == "int" else float)
    if case["payload"] == "dask":
        import dask.array as da
        d = da.from_array(d, chunks=-1)
    kw = {}
    if case["unc"]:
        klass = {"std": StdDevUncertainty, "var": VarianceUncertainty, "ivar": InverseVariance, "unknown": UnknownUncertainty}[case["unc"]]
        ua = np.array(case["uvals"], dtype=float).reshape(shape)
        kw["uncertainty"] = klass(np.stack([ua, ua, ua]) if pre else ua)
    if case["mask"] is not None:
        kw["mask"] = arr(case["mask"], bool)
    c = NDCube(d, wcs=lin_wcs(len(full)), unit=_unit(case["cunit"]), meta={"origin": "probe", "n": 3}, **kw)
    if pre:
        c.extra_coords.add("exposure", 0, [1, 2, 4] * u.s, physical_types="custom:exposure")
        if case["presliced"] == 1:
            c.extra_coords.add("e", 1, (np.arange(shape[0]) * 2 + 1) * u.m, physical_types="custom:e")
    else:
        c.extra_coords.add("e", 0, (np.arange(shape[0]) * 2 + 1) * u.m, physical_types="custom:e")
    c.global_coords.add("g", "custom:g", 3 * u.s)
    if pre:
        c = c[1]
    return poke(c, case["key"])


def _mk_operand(case):
    import astropy.units as u
    from astropy.nddata import NDData
    from ndcube import NDCube
    o = case["operand"]
    if o is None:
        return None
    shape = tuple(case["shape"])
    if o["kind"] == "cube":
        return NDCube(np.ones(shape), wcs=lin_wcs(len(shape)), unit=_unit(case["cunit"]))
    if o["kind"] == "nddata":
        return NDData(np.ones(shape), unit=_unit(case["cunit"]))
    # whole numbers are, by turns, also handed over as numpy unsigned / signed integers of several widths
    import zlib
    tk = zlib.crc32(("dtype" + case["key"]).encode()) % 6
    vals = [float(v) for v in o["vals"]]
    whole_nonneg = all(v == int(v) and 0 <= v < 200 for v in vals)
    whole = all(v == int(v) and abs(v) < 2 ** 20 for v in vals)
    dt = None
    if whole_nonneg and tk in (0, 1):
        dt = [np.uint8, np.uint16][tk]
    elif whole and tk == 2:
        dt = np.int32
    if o["kind"] == "num":
        return o["vals"][0] if dt is None else dt(o["vals"][0])
    arr = np.array(o["vals"], dtype=float).reshape(tuple(o["shape"])) if o["shape"] else (float(o["vals"][0]) if o["kind"] != "num" else o["vals"][0])
    if o["kind"] == "arr":
        return arr if dt is None or not o["shape"] else arr.astype(dt)
    return arr * _unit(o["unit"])


def _apply(op, c, x, k):
    if op == "neg":
        return -c
    if op == "add":
        return c + x
    if op == "radd":
        return x + c
    if op == "sub":
        return c - x
    if op == "rsub":
        return x - c
    if op == "mul":
        return c * x
    if op == "rmul":
        return x * c
    if op == "div":
        return c / x
    if op == "rdiv":
        return x / c
    if op == "pow":
        return c ** k
    if op == "to":
        return c.to(_unit(k))
    raise ValueError(op)


def _data(c):
    d = c.data
    if hasattr(d, "compute"):
        d = d.compute()
    return np.asarray(d)


def _same_frame(src, r):
    """wcs, extra coords, global coords, meta of r are those of src"""
    try:
        pr = [1.0] * src.wcs.pixel_n_dim
        if not np.array_equal(np.atleast_1d(r.wcs.low_level_wcs.pixel_to_world_values(*pr)), np.atleast_1d(src.wcs.low_level_wcs.pixel_to_world_values(*pr))) \
                or list(r.wcs.world_axis_physical_types) != list(src.wcs.world_axis_physical_types):
            return "wcs"
        if list(r.extra_coords.keys()) != list(src.extra_coords.keys()):
            return "extra coords"
        if src.extra_coords.is_empty != r.extra_coords.is_empty:
            return "extra coords"
        if not src.extra_coords.is_empty:
            a, b = r.axis_world_coords_values(wcs=r.extra_coords), src.axis_world_coords_values(wcs=src.extra_coords)
            if len(a) != len(b) or any(not np.array_equal(np.asarray(x), np.asarray(y)) for x, y in zip(a, b)):
                return "extra coords values"
        if list(r.global_coords.keys()) != list(src.global_coords.keys()) or any(r.global_coords[n] != src.global_coords[n] for n in src.global_coords.keys()):
            return "global coords"
        if r.meta != src.meta:
            return "meta"
    except Exception as e:  # noqa
        return f"reading coordinates raised {exc_name(e)}"
    return None


def _decomp(unit):
    """(scale Fraction, exps over BASES) or None when other bases appear"""
    import astropy.units as u
    if unit is None:
        return None
    d = u.Unit(unit).decompose()
    exps = [0, 0, 0]
    for b, p in zip(d.bases, d.powers):
        if b.name not in BASES or Fr(p).denominator != 1:
            return "other"
        exps[BASES.index(b.name)] = int(p)
    return [Fr(float(d.scale)), exps]


def run(case):
    import astropy.units as u
    from astropy.nddata import StdDevUncertainty
    c = _mk_cube(case)
    x = _mk_operand(case)
    op, k = case["op"], case["k"]
    o = case["operand"]
    why = []
    try:
        r = _apply(op, c, x, k)
        exc = None
    except Exception as e:  # noqa
        r, exc = None, exc_name(e)
    # ---- direct oracle: the same operation on the cube's data with units, done by numpy / astropy
    cu = c.unit if c.unit is not None else u.dimensionless_unscaled
    cq = _data(c).astype(float) * cu
    expected, refuse = None, None
    try:
        if o is not None and o["kind"] in ("cube", "nddata"):
            refuse = "a second cube / NDData operand"
        elif op in ("add", "radd", "sub", "rsub") and o["kind"] in ("num", "arr") and c.unit not in (None, u.dimensionless_unscaled):
            refuse = "a bare number added to a cube with a unit"
        elif op == "to" and c.unit is None:
            refuse = "to() on a cube without a unit"
        else:
            xv = x if (o is None or o["kind"] in ("qty", "qarr")) else (np.asarray(x, dtype=float) * u.dimensionless_unscaled)
            if op in ("add", "radd", "sub", "rsub") and o["kind"] in ("num", "arr"):
                cq = _data(c).astype(float) * u.dimensionless_unscaled        # halfu never reaches here (refused above)
            expected = {"neg": lambda: -cq, "add": lambda: cq + xv, "radd": lambda: xv + cq, "sub": lambda: cq - xv, "rsub": lambda: xv - cq,
                        "mul": lambda: cq * xv, "rmul": lambda: xv * cq, "div": lambda: cq / xv, "rdiv": lambda: xv / cq,
                        "pow": lambda: cq ** k, "to": lambda: cq.to(_unit(k))}[op]()
    except u.UnitConversionError:
        refuse = "incompatible units"
    except u.UnitsError:
        refuse = "incompatible units"
    out = {"t": "err", "e": exc}
    if refuse is not None:
        if exc is None:
            why.append(f"{refuse} was accepted")
    elif exc is not None:
        why.append(f"valid operation raised {exc}")
    else:
        rd = _data(r).astype(float)
        ru = r.unit if r.unit is not None else u.dimensionless_unscaled
        try:
            got = (rd * ru).to_value(expected.unit)
            ok = got.shape == expected.shape and np.allclose(got, expected.value, rtol=1e-12, atol=0, equal_nan=True)
        except Exception as e:  # noqa
            got, ok = None, False
        if not ok:
            why.append(f"physical values {None if got is None else got.tolist()} {expected.unit}, the same operation on the data with units gives {expected.value.tolist()}")
        if op == "to" and r.unit != _unit(k):
            why.append(f"to({k}) returned unit {r.unit}")
        if op in ("add", "radd", "sub", "rsub", "neg") and r.unit != c.unit:
            why.append(f"{op} changed the unit from {c.unit} to {r.unit}")
        fr = _same_frame(c, r)
        if fr:
            why.append(f"{fr} of the result differ from the source")
        else:
            # ... and they are the result's own: a coordinate added to one side afterwards must not show on the other
            try:
                import astropy.units as u_
                r.global_coords.add("h_", "custom:h", 1 * u_.s)
                c.global_coords.add("s2_", "custom:s2", 2 * u_.s)
                if "h_" in c.global_coords or "s2_" in r.global_coords:
                    why.append("the result and the source share their global coordinates (one added afterwards to one shows on the other)")
                c.global_coords.remove("s2_")
                r.global_coords.remove("h_")
            except Exception as e:  # noqa
                why.append(f"global coords of the result / source cannot be edited independently: {exc_name(e)}")
        if (c.mask is None) != (r.mask is None) or (c.mask is not None and not np.array_equal(c.mask, r.mask)):
            why.append("mask of the result differs from the source")
        # uncertainties
        if op in ("add", "radd", "sub", "rsub", "neg"):
            if (c.uncertainty is None) != (r.uncertainty is None) or (c.uncertainty is not None and (
                    type(r.uncertainty) is not type(c.uncertainty) or not np.array_equal(r.uncertainty.array, c.uncertainty.array))):
                why.append("sums / negation changed the uncertainty")
        if op in ("mul", "rmul", "div", "to") and isinstance(c.uncertainty, StdDevUncertainty):
            if op == "to":
                fac = np.abs(c.unit.to(_unit(k)))
            else:
                xm = np.abs(np.asarray(getattr(x, "value", x), dtype=float))
                fac = 1 / xm if op == "div" else xm
            exp_u = c.uncertainty.array * fac
            if not isinstance(r.uncertainty, StdDevUncertainty) or not np.allclose(np.broadcast_to(r.uncertainty.array, exp_u.shape), exp_u, rtol=1e-12):
                why.append(f"standard deviation {None if r.uncertainty is None else r.uncertainty.array.tolist()} is not |k| times the source's {exp_u.tolist()}")
        # identities
        try:
            if op == "add":
                back = r - x
                if not np.allclose(_data(back), _data(c), rtol=1e-12, atol=1e-12) or back.unit != c.unit:
                    why.append("(c + q) - q does not reproduce c")
            if op == "mul" and o["kind"] in ("num", "arr") and np.all(np.asarray(x) != 0):
                back = r / x
                same_u = (c.uncertainty is None and back.uncertainty is None) or (
                    c.uncertainty is not None and back.uncertainty is not None and np.allclose(back.uncertainty.array, c.uncertainty.array, rtol=1e-12))
                if not np.allclose(_data(back), _data(c), rtol=1e-12, atol=1e-12) or back.unit != c.unit or not same_u:
                    why.append("(c * k) / k does not reproduce c")
            if op == "neg":
                back = -r
                if not np.array_equal(_data(back), _data(c)):
                    why.append("-(-c) does not reproduce c")
                m1 = c * -1
                same_u = (r.uncertainty is None and m1.uncertainty is None) or (
                    r.uncertainty is not None and m1.uncertainty is not None and np.array_equal(m1.uncertainty.array, r.uncertainty.array))
                if not np.array_equal(_data(m1), _data(r)) or m1.unit != r.unit or not same_u:
                    why.append("c * -1 differs from -c")
        except Exception as e:  # noqa
            why.append(f"identity check raised {exc_name(e)}")
        # ---- what the model is compared with
        dec = _decomp(r.unit)
        kinds = {"StdDevUncertainty": "UStd", "VarianceUncertainty": "UVar", "InverseVariance": "UInvVar", "UnknownUncertainty": "UUnknown"}
        out = {"t": "res", "data": [Fr(float(v)) for v in rd.ravel()], "unit": dec,
               "unc": None if r.uncertainty is None else [kinds[type(r.uncertainty).__name__], [Fr(float(v)) for v in np.broadcast_to(r.uncertainty.array, rd.shape).ravel()]],
               "mask": None if r.mask is None else [bool(v) for v in np.asarray(r.mask).ravel()],
               "carried": 7 if fr is None else 0}
    from harness.props.c05 import _ser
    return {"out": _ser(out), "oracle": {"ok": not why, "why": "; ".join(why[:3]), "finding": None}}


def _cq(x):
    return f"(({x[0]}) # {x[1]})%Q"


def _fq(v):
    f = Fr(float(v))
    return f"(({f.numerator}) # {f.denominator})%Q"


def _cunit(name):
    if name is None:
        return "None"
    n, d, e = UNITS[name]
    return f"(Some (mkU (({n}) # {d})%Q {Q.lst(e, Q.z)}))"


def _unit_raw(name):
    n, d, e = UNITS[name]
    return f"(mkU (({n}) # {d})%Q {Q.lst(e, Q.z)})"


def coq_case(case, res):
    o = res["out"]
    TRIV = "mk (mkC [] None None None 0) OpNeg OOther (ORes (mkR [] None None None 0))"
    if case["si"] or (o["t"] == "res" and o["unit"] == "other"):
        return TRIV
    if case["op"] == "to" and case["k"] not in UNITS:
        return TRIV
    shape = tuple(case["shape"])
    size = int(np.prod(shape))
    kinds = {"std": "UStd", "var": "UVar", "ivar": "UInvVar", "unknown": "UUnknown"}
    unc = "None" if not case["unc"] else f"(Some ({kinds[case['unc']]}, {Q.lst([_fq(v) for v in case['uvals']])}))"
    mask = "None" if case["mask"] is None else f"(Some {Q.lst(case['mask'], Q.b)})"
    cube = f"(mkC {Q.lst([_fq(v) for v in case['data']])} {_cunit(case['cunit'])} {unc} {mask} 7)"
    op = {"neg": "OpNeg", "add": "OpAdd", "radd": "OpRadd", "sub": "OpSub", "rsub": "OpRsub", "mul": "OpMul", "rmul": "OpRmul",
          "div": "OpDiv", "rdiv": "OpRdiv"}.get(case["op"])
    if case["op"] == "pow":
        op = f"(OpPow {Q.z(case['k'])})"
    if case["op"] == "to":
        op = f"(OpTo {_unit_raw(case['k'])})"
    od = case["operand"]
    if od is None:
        v = "(ONum [])"
    elif od["kind"] in ("cube", "nddata"):
        v = "OOther"
    else:
        arr = np.array(od["vals"], dtype=float).reshape(tuple(od["shape"])) if od["shape"] else np.array(float(od["vals"][0]))
        vals = Q.lst([_fq(x) for x in np.broadcast_to(arr, shape).ravel()])
        v = f"(ONum {vals})" if od["kind"] in ("num", "arr") else f"(OQty {vals} {_unit_raw(od['unit'])})"
    if o["t"] == "err":
        impl = f"(OErr {Q.err(o['e'])})"
    else:
        ru = "None" if o["unit"] is None else f"(Some (mkU {_cq(o['unit'][0])} {Q.lst(o['unit'][1], Q.z)}))"
        runc = "None" if o["unc"] is None else f"(Some ({o['unc'][0]}, {Q.lst([_cq(x) for x in o['unc'][1]])}))"
        rmask = "None" if o["mask"] is None else f"(Some {Q.lst(o['mask'], Q.b)})"
        impl = f"(ORes (mkR {Q.lst([_cq(x) for x in o['data']])} {ru} {runc} {rmask} {Q.z(o['carried'])}))"
    return f"mk {cube} {op} {v} {impl}"
