"""Runs one property module's `run(case)` on a chunk of cases against /repo's working tree."""
import json
import signal
import sys
import importlib
import traceback
import warnings


class _Timeout(Exception):
    pass


def _alarm(signum, frame):
    raise _Timeout()


def main():
    modname, fin, fout, tmo = sys.argv[1], sys.argv[2], sys.argv[3], int(sys.argv[4])
    warnings.simplefilter("ignore")
    mod = importlib.import_module(modname)
    cases = json.load(open(fin))
    out = []
    signal.signal(signal.SIGALRM, _alarm)
    for c in cases:
        signal.alarm(tmo)
        try:
            r = mod.run(c)
        except _Timeout:
            r = {"crash": f"timeout after {tmo}s"}
        except BaseException as e:  # noqa
            r = {"crash": "harness/impl raised outside run()'s own handling: " + "".join(
                traceback.format_exception_only(type(e), e)).strip() + " @ " + traceback.format_exc()[-600:]}
        finally:
            signal.alarm(0)
        out.append(r)
    json.dump(out, open(fout, "w"), default=str)


if __name__ == "__main__":
    main()
