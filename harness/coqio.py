"""Gallina literal printers and JSON-able encodings of Python index items."""
from fractions import Fraction


def z(i):
    return f"({int(i)})%Z"


def nat(n):
    assert n >= 0
    return f"{int(n)}%nat"


def b(x):
    return "true" if x else "false"


def opt(x, f=z):
    return "None" if x is None else f"(Some {f(x)})"


def lst(xs, f=None):
    xs = [f(x) for x in xs] if f else list(xs)
    return "[" + "; ".join(xs) + "]"


def tup(*xs):
    return "(" + ", ".join(xs) + ")"


def q(x):
    """exact rational literal (n # d) of an int / float / Fraction"""
    fr = Fraction(x)
    return f"(({fr.numerator}) # {fr.denominator})"


def s(x):
    return '"' + str(x).replace('"', '""') + '"%string'


ERR = {"IndexError": "EIndex", "ValueError": "EValue", "TypeError": "EType",
       "UnitsError": "EUnits", "UnitConversionError": "EUnits", "UnitTypeError": "EUnits",
       "NotImplementedError": "ENotImpl", "AttributeError": "EAttr"}


def err(name):
    return ERR.get(name, "EOther")


# ---- index items: JSON encoding  int | ["s", a, b, st] | "E" | "N" ---------------------------
def enc_item(it):
    if it is Ellipsis:
        return "E"
    if it is None:
        return "N"
    if isinstance(it, slice):
        return ["s", it.start, it.stop, it.step]
    return int(it)


def dec_item(e):
    if e == "E":
        return Ellipsis
    if e == "N":
        return None
    if isinstance(e, list):
        return slice(e[1], e[2], e[3])
    return int(e)


def coq_item(e):
    if e == "E":
        return "IEllipsis"
    if e == "N":
        return "INone"
    if isinstance(e, list):
        return f"(ISlice {opt(e[1])} {opt(e[2])} {opt(e[3])})"
    return f"(IInt {z(e)})"


def dec_items(es):
    return tuple(dec_item(e) for e in es)


def np_ints(key, items):
    """Every fourth case (by its key) hands integer indices over as numpy.int64 instead of Python ints: the
    implementation must treat them alike.  Accepts a tuple / list of items or a single item."""
    import zlib
    import numpy as np
    if zlib.crc32(str(key).encode()) % 4 != 0:
        return items
    conv = lambda i: np.int64(i) if isinstance(i, int) and not isinstance(i, bool) else i  # noqa
    if isinstance(items, (tuple, list)):
        return type(items)(conv(i) for i in items)
    return conv(items)
